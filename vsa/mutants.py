"""One-edit mutants used by the self-test.  Each entry: name, file, pat (regex on the
source text), rep (replacement), expect (substring of the finding key that must appear)."""
import re

E = re.escape
ST = 'thermosteam/_stream.py'
MS = 'thermosteam/_multi_stream.py'
IX = 'thermosteam/indexer.py'
SP = 'thermosteam/base/sparse.py'
RX = 'thermosteam/reaction/_reaction.py'
VL = 'thermosteam/equilibrium/vle.py'
LL = 'thermosteam/equilibrium/lle.py'
SL = 'thermosteam/equilibrium/sle.py'
NW = 'thermosteam/network.py'
FE = 'thermosteam/free_energy.py'
CH = 'thermosteam/_chemical.py'
CHS = 'thermosteam/_chemicals.py'
MX = 'thermosteam/mixture/mixture.py'
IMM = 'thermosteam/mixture/ideal_mixture_model.py'
SEPF = 'thermosteam/separations.py'
AC = 'thermosteam/equilibrium/activity_coefficients.py'
BP = 'thermosteam/equilibrium/bubble_point.py'
DP = 'thermosteam/equilibrium/dew_point.py'
DV = 'thermosteam/base/dictionary_view.py'
UC = 'thermosteam/utils/cache.py'
PRS = 'thermosteam/reaction/_parse.py'


def m(name, file, pat, rep, expect=None, dotall=False):
    return {'name': name, 'file': file, 'pat': pat, 'rep': rep, 'expect': expect, 'dotall': dotall}


MUTANTS = {
    'C01': [
        m('split-drop-complement', ST, E('dummy = mol - values'), 'dummy = mol', 'Stream.split_to'),
        m('split-wrong-factor', ST, E('values = mol * split'), 'values = mol * split * split', 'Stream.split_to'),
        m('scale-twice', ST, E('        self._imol.data *= scale\n'), '        self._imol.data *= scale\n        self._imol.data *= scale\n', 'Stream.scale'),
        m('mul-in-place', ST, r'def __mul__\(self, other\):\n        new = self\.copy\(\)', 'def __mul__(self, other):\n        new = self', 'Stream.__mul__'),
        m('mix-append-twice', IX, E('            elif ichemicals is chemicals:\n                sc_data.append(idata)'), '            elif ichemicals is chemicals:\n                sc_data.append(idata)\n                sc_data.append(idata)', 'ChemicalIndexer.mix_from'),
        m('mix-drop-inlet', IX, E('            elif ichemicals is chemicals:\n                sc_data.append(idata)'), '            elif ichemicals is chemicals:\n                pass', 'ChemicalIndexer.mix_from'),
        m('mix-wrong-family', IX, E('            if chemicals is ichemicals:\n                for i, j in zip(i._phases, idata.rows):\n                    scp_data[i].append(j)'),
          '            if chemicals is not ichemicals:\n                for i, j in zip(i._phases, idata.rows):\n                    scp_data[i].append(j)', 'MaterialIndexer.mix_from'),
        m('mix-consume-twice', IX, E('        data.mix_from(sc_data)\n'), '        data.mix_from(sc_data)\n        data.mix_from(sc_data)\n', 'ChemicalIndexer.mix_from'),
        m('sparse-mix-clear-unguarded', SP, E('            if repeated == 0:\n                dct.clear()'), '            if repeated >= 0:\n                dct.clear()', 'SparseVector.mix_from'),
        m('sparse-copy-like-no-guard', SP, E('        if dct is other.dct: return\n        dct.clear()'), '        dct.clear()', 'SparseVector.copy_like'),
        m('indexer-copy-like-no-guard', IX, r'    def copy_like\(self, other\):\n        if self is other: return\n        if self\.chemicals', '    def copy_like(self, other):\n        if self.chemicals', 'ChemicalIndexer.copy_like'),
        m('stale-phases', IX, E('        if new_phases: self._expand_phases(other_phases)\n        phases = self._phases\n'), '        phases = self._phases\n        if new_phases: self._expand_phases(other_phases)\n', 'stale-phases'),
        m('copy-flow-zero-other-index', ST, E('                    other_mol[other_index] = 0'), '                    other_mol[:] = 0', 'Stream.copy_flow'),
        m('separate-add', IX, E('            self.data -= other.sum_across_phases()'), '            self.data += other.sum_across_phases()', 'ChemicalIndexer.separate_out'),
    ],
    'C02': [
        m('mix-drop-Q', ST, E('H = sum([i.H for i in streams], Q)\n                    self.vle(H=H, P=P)'), 'H = sum([i.H for i in streams])\n                    self.vle(H=H, P=P)', 'Stream.mix_from[vle]'),
        m('mix-H-before-material', ST, E('                    self._imol.mix_from([i._imol for i in streams])\n                    H = sum([i.H for i in streams], Q)\n                    if conserve_phases: \n                        self.H = H'),
          '                    H = sum([i.H for i in streams], Q)\n                    if conserve_phases: \n                        self.H = H\n                    self._imol.mix_from([i._imol for i in streams])\n                    if conserve_phases: \n                        pass', 'Stream.mix_from'),
        m('mix-P-max', ST, E('self.P = P = min([i.P for i in streams])'), 'self.P = P = max([i.P for i in streams])', 'P-min'),
        m('single-inlet-drop-Q', ST, E('                if Q: self.H += Q\n'), '', 'Q-dropped'),
        m('S-setter-into-S', ST, E('            self.T = self.mixture.solve_T_at_SP(\n                self.phase, self.mol, S, *self._thermal_condition\n            )\n    @property'), '            self.S = self.mixture.solve_T_at_SP(\n                self.phase, self.mol, S, *self._thermal_condition\n            )\n    @property', 'Stream.S.setter'),
        m('H-setter-wrong-solver', MS, E('self.T = self.mixture.xsolve_T_at_HP(\n            self._imol, H,'), 'self.T = self.mixture.xsolve_T_at_SP(\n            self._imol, H,', 'MultiStream.H.setter'),
        m('separate-H-after', ST, E('            if energy_balance: H_new = self.H - other.H\n            self._imol.separate_out(other._imol)'), '            self._imol.separate_out(other._imol)\n            if energy_balance: H_new = self.H - other.H', 'Stream.separate_out'),
        m('newton-sign', MX, E('    return T + (H - H_model(phase, mol, T, P)) / Cn'), '    return T - (H - H_model(phase, mol, T, P)) / Cn', 'iter_T_at_HP'),
        m('entropy-step-sign', MX, E('    return T * exp((S - S_model(phase, mol, T, P)) / Cn)'), '    return T * exp((S_model(phase, mol, T, P) - S) / Cn)', 'iter_T_at_SP'),
        m('secant-residual', MX, E('lambda T: self.xH(phase_mol, T, P) - H'), 'lambda T: self.xH(phase_mol, T, P) + H', 'Mixture.xsolve_T_at_HP'),
    ],
    'C03': [
        m('lever-drop-complement', VL, E('self._liquid_mol[self._index] = self._mol_vle - v'), 'self._liquid_mol[self._index] = self._mol_vle', 'VLE._lever_rule'),
        m('set-flows-drop-complement', VL, E('    liquid_mol[index] = total_data - vapor_data'), '    liquid_mol[index] = total_data', 'set_flows'),
        m('chemical-unpaired', VL, E("                self._liquid_mol[self._index] = self._mol_vle\n                self._vapor_mol[self._index] = 0\n    \n    def _set_TV_chemical"), "                self._liquid_mol[self._index] = self._mol_vle\n    \n    def _set_TV_chemical", 'VLE._set_thermal_condition_chemical'),
        m('clip-upper-removed', VL, E('            mask = v > mol_vle\n            v[mask] = mol_vle[mask]\n'), '', 'VLE._solve_v'),
        m('clip-lower-removed', VL, E('            v[v < 0.] = 0.\n'), '', 'VLE._solve_v'),
        m('transfer-unequal', VL, E('                    liquid_mol[index] += condensed\n                    vapor_mol[index] -= condensed '), '                    liquid_mol[index] += condensed\n                    vapor_mol[index] -= 0.5 * condensed ', 'transfer'),
        m('fraction-clamp-removed', VL, E('                    if f > 1.: f = 1.\n                    condensed = f * mol_gas[index]'), '                    condensed = f * mol_gas[index]', 'fraction-clamp'),
        m('setup-light-to-liquid', VL, E('        vapor_mol[LNK_index] = light_mol = mol[LNK_index]\n        liquid_mol[LNK_index] = 0'), '        vapor_mol[LNK_index] = light_mol = mol[LNK_index]\n        liquid_mol[LNK_index] = mol[LNK_index]', 'VLE._setup'),
        m('wrong-index-set', VL, E('        self._vapor_mol[self._index] = v = self._F_mol * split_frac * y'), '        self._vapor_mol[:] = v = self._F_mol * split_frac * y', 'VLE._lever_rule'),
        m('sle-drop-complement', SL, E('            solid_mol[solute_index] = mol_solute - mol_solute_liquid '), '            solid_mol[solute_index] = mol_solute ', 'SLE._update_solubility'),
        m('lle-drop-complement', LL, E('                    mol_L = mol - mol_l\n'), '                    mol_L = mol\n', 'LLE.__call__'),
        m('lle-pool-keep-l', LL, E("        imol['l'] = 0\n"), '', 'LLE.get_liquid_mol_data'),
        m('vlle-no-rescale', ST, E('        data *= total_flow\n'), '', 'Stream.vlle'),
    ],
    'C04': [
        m('TV-chemical-T', VL, E('self._P = self._thermal_condition.P = self._chemical.Psat(T)'), 'self._T = self._thermal_condition.T = self._chemical.Psat(T)', 'VLE'),
        m('Tx-drop-T', VL, E("        self._thermal_condition.T = T\n        self._thermal_condition.P, y = self._bubble_point.solve_Py(x, T)"), "        self._thermal_condition.P, y = self._bubble_point.solve_Py(x, T)", 'VLE.set_Tx'),
        m('PV-store-dew-as-P', VL, E('            thermal_condition.T = T_dew\n        elif V == 0 and not self._F_mol_light:'), '            thermal_condition.P = T_dew\n        elif V == 0 and not self._F_mol_light:', 'VLE.set_PV'),
        m('TH-chemical-drop-T', VL, E('    def _set_TH_chemical(self, T, H):\n        self._T = self._thermal_condition.T = T\n'), '    def _set_TH_chemical(self, T, H):\n', 'VLE.set_TH'),
        m('dispatch-swap-args', VL, E('self.set_TV(T, V, gas_conversion, liquid_conversion)'), 'self.set_TV(V, T, gas_conversion, liquid_conversion)', 'VLE.__call__'),
        m('dispatch-wrong-handler', VL, E('                self.set_Px(P, np.asarray(x))'), '                self.set_Py(P, np.asarray(x))', 'VLE.__call__'),
        m('fallback-drop-P', VL, E("                except NoEquilibrium:\n                    thermal_condition = self._thermal_condition\n                    thermal_condition.T = T\n                    thermal_condition.P = P"), "                except NoEquilibrium:\n                    thermal_condition = self._thermal_condition\n                    thermal_condition.T = T", 'fallback-P'),
        m('thermal-condition-after-T', VL, E('        self._T = thermal_condition.T = T\n        self._P = thermal_condition.P = P\n        if self._N == 0: return'), '        self._T = thermal_condition.T = P\n        self._P = thermal_condition.P = P\n        if self._N == 0: return', 'VLE.set_thermal_condition'),
    ],
    'C05': [
        m('reaction-form', RX, E('material_array += material_array[self._reactant_index] * self.X * self._stoichiometry'), 'material_array += material_array[self._reactant_index] * self._stoichiometry', 'Reaction._reaction'),
        m('parallel-reads-running', RX, E('        for X, stoichiometry in zip(reacted, self._stoichiometry):\n            material_array += X * stoichiometry\n\n    def _conversion'), '        for i, (X, stoichiometry) in enumerate(zip(self._X, self._stoichiometry)):\n            material_array += X * material_array[self._reactant_index[i]] * stoichiometry\n\n    def _conversion', 'ParallelReaction._reaction'),
        m('rescale-sign', RX, E('        new_scale = -self._stoichiometry[self._reactant_index]'), '        new_scale = self._stoichiometry[self._reactant_index]', 'Reaction._rescale'),
        m('no-rescale-after-correct', RX, E('                self._stoichiometry[index] = x \n        self._rescale()'), '                self._stoichiometry[index] = x \n        pass', 'no-rescale'),
        m('basis-no-rescale', RX, E("        rxn._rescale()\n        rxn._basis = basis"), "        rxn._basis = basis", 'set_reaction_basis'),
        m('basis-wt-divide', RX, E('                rxn._stoichiometry *= rxn.MWs'), '                rxn._stoichiometry /= rxn.MWs', 'set_reaction_basis'),
        m('no-write-back', RX, E("            fn.remove_negligible_negative_values(values)\n        if original is not None: original[:] = values\n        if config: material._imol.reset_chemicals(*config)\n        \n    def force_reaction"), "            fn.remove_negligible_negative_values(values)\n        if config: material._imol.reset_chemicals(*config)\n        \n    def force_reaction", 'no-write-back'),
        m('parser-sign', PRS, E('    extract_coefficients(reactants, dct, -1.)'), '    extract_coefficients(reactants, dct, 1.)', 'str2dct'),
        m('parser-drop-sign', PRS, E('        try: n = sign * float(nID[:i])'), '        try: n = float(nID[:i])', 'split_coefficient'),
        m('feasibility-skip', RX, E('                else:\n                    values[negative_index] = 0.\n        else:\n            fn.remove_negligible_negative_values(values)\n        if original is not None: original[:] = values\n        if config: material._imol.reset_chemicals(*config)\n        \n    def force_reaction'), '                else:\n                    pass\n        else:\n            fn.remove_negligible_negative_values(values)\n        if original is not None: original[:] = values\n        if config: material._imol.reset_chemicals(*config)\n        \n    def force_reaction', 'Reaction.__call__'),
        m('add-no-normalise', RX, E('        rxn._stoichiometry = stoichiometry / -(stoichiometry[rxn._reactant_index])\n        rxn.X = self.X + rxn.X'), '        rxn._stoichiometry = stoichiometry\n        rxn.X = self.X + rxn.X', 'no-rescale'),
    ],
    'C06': [
        m('dH-drop-X', RX, E('        return self._X * (Hfs * stoichiometry).sum()'), '        return (Hfs * stoichiometry).sum()', 'Reaction.dH'),
        m('latent-sign', RX, E("                            elif phase == 's':\n                                H_latent[i, j] = -chemical.Hfus\n                            else:\n                                raise RuntimeError(f\"invalid phase '{phase}'\")\n                        elif phase_ref == 'g':"), "                            elif phase == 's':\n                                H_latent[i, j] = chemical.Hfus\n                            else:\n                                raise RuntimeError(f\"invalid phase '{phase}'\")\n                        elif phase_ref == 'g':", 'latent l->s'),
        m('latent-missing-term', RX, E('H_latent[i, j] = -(chemical.Hvap(298.15) + chemical.Hfus)'), 'H_latent[i, j] = -chemical.Hvap(298.15)', 'latent g->s'),
        m('adiabatic-Hnet-after', RX, E('        Hnet = stream.Hnet + Q\n        self(stream)\n'), '        self(stream)\n        Hnet = stream.Hnet + Q\n', 'Reaction.adiabatic_reaction'),
        m('adiabatic-drop-Q', RX, E('        Hnet = stream.Hnet + Q\n'), '        Hnet = stream.Hnet\n', 'Reaction.adiabatic_reaction'),
        m('Hnet-setter', ST, E('        self.H = Hnet - self.Hf'), '        self.H = Hnet + self.Hf', 'Stream.Hnet.setter'),
        m('wt-basis-multiply', RX, E("        if self._basis == 'wt': Hfs = Hfs / self.MWs"), "        if self._basis == 'wt': Hfs = Hfs * self.MWs", 'Reaction.dH'),
    ],
    'C07': [
        m('swap-tuple', CH, E('ldata = (Cn_l, H_int_T_ref_to_Tm_s, Hfus, Tm, H_ref)'), 'ldata = (Cn_l, H_int_T_ref_to_Tm_s, Tm, Hfus, H_ref)', 'ref=s'),
        m('wrong-integral-bounds', CH, E('H_int_Tm_to_Tb_l = Cn_l.T_dependent_property_integral(Tm, Tb)'), 'H_int_Tm_to_Tb_l = Cn_l.T_dependent_property_integral(Tb, Tm)', 'Chemical._init_energies'),
        m('functor-sign', FE, E('return H_ref - H_int_Tb_to_T_ref_g - Hvap_Tb + Cn_l.T_dependent_property_integral(Tb, T)'), 'return H_ref - H_int_Tb_to_T_ref_g + Hvap_Tb + Cn_l.T_dependent_property_integral(Tb, T)', 'ref=g'),
        m('gas-entropy-P', FE, E('def Gas_Entropy_Ref_Gas(T, P, Cn_g, T_ref, P_ref, S0):\n    return S0 + Cn_g.T_dependent_property_integral_over_T(T_ref, T) - R*log(P/P_ref)'), 'def Gas_Entropy_Ref_Gas(T, P, Cn_g, T_ref, P_ref, S0):\n    return S0 + Cn_g.T_dependent_property_integral_over_T(T_ref, T) + R*log(P/P_ref)', 'ref=g'),
        m('wrong-Cn-phase', CH, E('gdata = (Cn_g, H_int_T_ref_to_Tb_l, Hvap_Tb, Tb, H_ref)'), 'gdata = (Cn_l, H_int_T_ref_to_Tb_l, Hvap_Tb, Tb, H_ref)', 'ref=l'),
        m('short-tuple', CH, E('ldata = (Cn_l, S_int_Tb_to_T_ref_g, Svap_Tb, Tb, S0)'), 'ldata = (Cn_l, S_int_Tb_to_T_ref_g, Svap_Tb, S0)', 'arity'),
        m('svap-no-division', CH, E('Svap_Tb = Hvap_Tb / Tb if Hvap_Tb else None'), 'Svap_Tb = Hvap_Tb if Hvap_Tb else None', 'Svap-jump'),
        m('mixture-not-weighted', IMM, E('return sum([j * models[i](phase, T) for i, j in mol.dct.items()])'), 'return sum([models[i](phase, T) for i, j in mol.dct.items()])', 'IdealTMixtureModel'),
        m('excess-always', MX, E('        if self.include_excess_energies: H += self._H_excess(phase, mol, T, P)'), '        H += self._H_excess(phase, mol, T, P)', 'Mixture.H'),
        m('builder-order', FE, E("EnthalpyRefSolid = PhaseTPFunctorBuilder('H',\n                                       Solid_Enthalpy_Ref_Solid.functor,\n                                       Liquid_Enthalpy_Ref_Solid.functor,"), "EnthalpyRefSolid = PhaseTPFunctorBuilder('H',\n                                       Liquid_Enthalpy_Ref_Solid.functor,\n                                       Solid_Enthalpy_Ref_Solid.functor,", 'ref=s'),
        m('S-model-wiring', MX, E("S = create_mixture_model(chemicals, 'S', IdealEntropyModel)"), "S = create_mixture_model(chemicals, 'S', IdealTPMixtureModel)", 'create_mixture_model'),
    ],
    'C08': [
        m('no-normalize', BP, E('            return T, fn.normalize(y)\n        else:\n            f = self._T_error_reactive'), '            return T, y\n        else:\n            f = self._T_error_reactive', 'BubblePoint.solve_Ty'),
        m('Py-unnormalised-z', BP, E('            z_Psat_gamma = z_norm * Psats * self.gamma(z_norm, T)\n            f = self._P_error'), '            z_Psat_gamma = z * Psats * self.gamma(z_norm, T)\n            f = self._P_error', 'BubblePoint.solve_Py'),
        m('shortcut-wrong-kind', DP, E('            T = chemical.Tsat(P, check_validity=False) if P <= chemical.Pc else chemical.Tc\n            x = z.copy()'), '            T = chemical.Psat(P) if P <= chemical.Pc else chemical.Tc\n            x = z.copy()', 'DewPoint.solve_Tx'),
        m('cache-key-drops-Gamma', BP, E('key = (chemicals, thermo.Gamma, thermo.Phi, thermo.PCF)'), 'key = (chemicals, thermo.Phi, thermo.PCF)', 'BubblePoint.__new__'),
    ],
    'C09': [
        m('drop-zero-test-add', SP, E('                    j = dct[i] + other\n                    if j: new[i] = j\n                else:\n                    new[i] = other\n        else:\n            new = dct.copy()\n        return SparseVector.from_dict(new, size)\n    \n    def _add_sparse'), '                    j = dct[i] + other\n                    new[i] = j\n                else:\n                    new[i] = other\n        else:\n            new = dct.copy()\n        return SparseVector.from_dict(new, size)\n    \n    def _add_sparse', 'SparseVector._add_scalar'),
        m('drop-zero-test-array', SP, E('                for i in range(other_size):\n                    j = other[i]\n                    if j: dct[i] = float(j)\n        else:\n            raise ValueError(\'shape mismatch between arrays\')\n        return self\n    \n    def _sub_scalar'), '                for i in range(other_size):\n                    j = other[i]\n                    dct[i] = float(j)\n        else:\n            raise ValueError(\'shape mismatch between arrays\')\n        return self\n    \n    def _sub_scalar', 'SparseVector._iadd_array'),
        m('read-only-gate-late', SP, E('    def clear(self):\n        if self.read_only: raise ValueError(\'assignment destination is read-only\')\n        self.dct.clear()'), '    def clear(self):\n        self.dct.clear()\n        if self.read_only: raise ValueError(\'assignment destination is read-only\')', 'SparseVector.clear'),
        m('template-no-gate', SP, E('read_only = "if self.read_only: raise ValueError(\'assignment destination is read-only\')"'), 'read_only = ""', 'SparseVector.__i'),
        m('binary-writes-operand', SP, E('            new = dct.copy()\n            for i, j in other_dct.items():\n                if i in dct:\n                    j += dct[i]\n                    if j: new[i] = j\n                    else: del new[i]'), '            new = dct\n            for i, j in other_dct.items():\n                if i in dct:\n                    j += dct[i]\n                    if j: new[i] = j\n                    else: del new[i]', 'SparseVector._add_sparse'),
        m('result-aliases', SP, E('                new = dct.copy()\n            size = other_size\n        elif other_size == 1:\n            if 0 in other_dct: \n                other = other_dct[0]\n                new = {i: j / other'), '                new = dct\n            size = other_size\n        elif other_size == 1:\n            if 0 in other_dct: \n                other = other_dct[0]\n                new = {i: j / other', 'SparseVector._truediv_sparse'),
        m('dispatcher-misnamed', SP, E('            for i in rows: i._i{name}_sparse(other)\n        else:'), '            for i in rows: i._i{name}_sparce(other)\n        else:', 'unresolved'),
        m('no-shape-error', SP, E("        else:\n            raise ValueError('shape mismatch between arrays')\n        return self\n    \n    def _iadd_array"), "        return self\n    \n    def _iadd_array", 'SparseVector._iadd_sparse'),
        m('indexer-store-zero', IX, E('                if j: dct[i] = float(j)\n                elif i in dct: del dct[i]  \n        else:\n            raise IndexError('), '                dct[i] = float(j)\n        else:\n            raise IndexError(', 'reset_sparse_chemical_data'),
        m('max-keepdims-zero', SP, E('{0: arr} if arr else {}'), '{0: arr}', 'SparseArray.m'),
    ],
    'C10': [
        m('trim-int-loop', UC, E('for i in tuple(cache)[:100]: del cache[i]'), 'for i in 100: del cache[i]', 'trim_cache'),
        m('trim-live-iterator', UC, E('        for i in tuple(cache)[:100]: del cache[i]'), '        it = cache.__iter__()\n        for i in range(100): del cache[it.__next__()]', 'trim_cache'),
        m('overlap-kind-0', IX, E('        cache[CASs] = (left_index, 3)'), '        cache[CASs] = (left_index, 0)', 'index_overlap'),
        m('memo-differs', CHS, E('            index_cache[key] = index, kind\n'), '            index_cache[key] = kind, index\n', '_get_index_and_kind'),
        m('mutate-handed-out', IX, E('            left_index, right_index = index_overlap(self._chemicals, other._chemicals, [*other_data.nonzero_keys()])\n            self.data[left_index] -= other_data[right_index]'), '            left_index, right_index = index_overlap(self._chemicals, other._chemicals, [*other_data.nonzero_keys()])\n            left_index.sort()\n            self.data[left_index] -= other_data[right_index]', 'mutates-left_index'),
        m('alias-guard-removed', CHS, E('        if alias in dct and dct[alias] is not chemical:\n            raise ValueError(f"alias \'{alias}\' already in use by {repr(dct[alias])}")\n        else:\n            self._index[alias] = self._index[ID]\n            dct[alias] = chemical'), '        self._index[alias] = self._index[ID]\n        dct[alias] = chemical', 'set_alias'),
    ],
    'C11': [
        m('expand-keeps-views', IX, E('            self._data_cache.clear()\n            self._set_cache()'), '            self._set_cache()', 'MaterialIndexer._expand_phases'),
        m('unlink-keeps-views', ST, E('        imol._data_cache = {}\n        imol.data = imol.data.copy()'), '        imol.data = imol.data.copy()', 'Stream.unlink'),
        m('set-flow-multiplies', ST, E('        indexer[key] = np.asarray(data, dtype=float) / factor'), '        indexer[key] = np.asarray(data, dtype=float) * factor', 'Stream.get_flow/set_flow'),
        m('Fmass-setter', ST, E('            self.imol.data *= value/F_mass'), '            self.imol.data *= F_mass/value', 'Stream.F_mass.setter'),
        m('mass-view-input', DV, E('        return value / self.MW[index] # From kg to mol'), '        return value * self.MW[index] # From kg to mol', 'MassFlowDict'),
        m('dimension-wrong-units', ST, E("                name = 'mass'\n                factor = mass_units.conversion_factor(units)"), "                name = 'mass'\n                factor = mol_units.conversion_factor(units)", '_get_flow_name_and_factor'),
        m('no-dimension-error', ST, E("            else:\n                raise DimensionError(\"dimensions for flow units must be in molar, \""), "            elif False:\n                raise DimensionError(\"dimensions for flow units must be in molar, \"", 'no-dimension-error'),
        m('vol-cache-live-TP', DV, E('            self.cache[index] = (self.TP.copy(), phase, V)\n        return value * V # From mol to m3'), '            self.cache[index] = (self.TP, phase, V)\n        return value * V # From mol to m3', 'VolumetricFlowDict.output'),
        m('vol-cache-ignores-phase', DV, E('        if phase != last_phase or not TP.in_equilibrium(self.TP):\n            V = self.V[index]\n            V = 1000. * (getattr(V, phase) if isinstance(V, PhaseHandle) else V)(*self.TP)\n            self.cache[index] = (self.TP.copy(), phase, V)\n        return value / V'), '        if not TP.in_equilibrium(self.TP):\n            V = self.V[index]\n            V = 1000. * (getattr(V, phase) if isinstance(V, PhaseHandle) else V)(*self.TP)\n            self.cache[index] = (self.TP.copy(), phase, V)\n        return value / V', 'VolumetricFlowDict.input'),
        m('reset-chemicals-keeps-views', IX, E('            self.data = data = SparseVector.from_size(chemicals.size)\n            self._data_cache = {}\n        else:\n            data, self._data_cache = container'), '            self.data = data = SparseVector.from_size(chemicals.size)\n        else:\n            data, self._data_cache = container', 'ChemicalIndexer.reset_chemicals'),
    ],
    'C12': [
        m('phases-keeps-views', MS, E('            self._streams.clear()\n            self.reset_cache()'), '            self.reset_cache()', 'MultiStream.phases.setter'),
        m('phase-setter-keeps-views', MS, E('            self._imol = self._imol.to_chemical_indexer(phase)\n            self._streams.clear()'), '            self._imol = self._imol.to_chemical_indexer(phase)', 'MultiStream.phase.setter'),
        m('unlink-keeps-substreams', ST, E("        imol.data = imol.data.copy()\n        if hasattr(self, '_streams'): self._streams.clear()"), '        imol.data = imol.data.copy()', 'Stream.unlink'),
        m('case-fallback-always', IX, E('        if phase not in phases: \n            if phase.isupper():\n                phase = phase.lower()\n            else:\n                phase = phase.upper()\n        material_array[phase].copy_like(self.data)'), '        if phase.isupper():\n            phase = phase.lower()\n        else:\n            phase = phase.upper()\n        material_array[phase].copy_like(self.data)', 'ChemicalIndexer.to_material_indexer'),
        m('snapshot-no-copy', ST, E('        self._imol = imol.copy()\n        self._T = thermal_condition._T'), '        self._imol = imol\n        self._T = thermal_condition._T', 'StreamData.__init__'),
        m('restore-flows-first', ST, E('            self.phases = stream_data._phases\n            self._imol.copy_like(stream_data._imol)'), '            self._imol.copy_like(stream_data._imol)\n            self.phases = stream_data._phases', 'Stream.set_data'),
        m('view-own-TC', MS, E('            stream._thermal_condition = self._thermal_condition\n            stream._thermo = self._thermo\n            stream._property_cache = {}'), '            stream._thermal_condition = self._thermal_condition.copy()\n            stream._thermo = self._thermo\n            stream._property_cache = {}', 'MultiStream.__getitem__'),
        m('copy-like-positional', IX, E('                    self._expand_phases(other._phases)\n                    self.empty()\n                    data = self.data\n                    phase_indexer = self._phase_indexer\n                    for i, j in other: data[phase_indexer(i)] = j'), '                    self._expand_phases(other._phases)\n                    self.data.copy_like(other.data)', 'MaterialIndexer.copy_like'),
        m('reset-thermo-keeps-views', ST, E("        if hasattr(self, '_streams'):\n            for phase, stream in self._streams.items():\n                stream._imol = self._imol.get_phase(phase)\n                stream._thermo = thermo"), "        if hasattr(self, '_streams'):\n            for phase, stream in self._streams.items():\n                stream._thermo = thermo", 'Stream._reset_thermo'),
    ],
    'C13': [
        m('unlink-only-clears-shared-cache', ST, E('        imol._data_cache = {}\n        imol.data = imol.data.copy()'), '        imol._data_cache.clear()\n        imol.data = imol.data.copy()', 'still-shared-_data_cache'),
        m('copy-shares-TC', ST, E('        new._thermal_condition = self._thermal_condition.copy()\n        new.reset_cache()\n        new.price = 0'), '        new._thermal_condition = self._thermal_condition\n        new.reset_cache()\n        new.price = 0', 'Stream.copy'),
        m('copy-shares-imol', ST, E('        new._imol = self._imol.copy()\n        if thermo and thermo.chemicals'), '        new._imol = self._imol\n        if thermo and thermo.chemicals', 'Stream.copy'),
        m('flow-proxy-copies-flow', ST, E('        imol.data = self._imol.data\n        new._thermal_condition = self._thermal_condition.copy()'), '        imol.data = self._imol.data.copy()\n        new._thermal_condition = self._thermal_condition.copy()', 'Stream.flow_proxy'),
        m('proxy-copies-TC', ST, E('        new._thermal_condition = self._thermal_condition\n        new.reset_cache()\n        new.equations = self.equations'), '        new._thermal_condition = self._thermal_condition.copy()\n        new.reset_cache()\n        new.equations = self.equations', 'Stream.proxy'),
        m('link-ignores-flag', ST, E('        if TP:\n            self._thermal_condition = other._thermal_condition\n        if flow:'), '        self._thermal_condition = other._thermal_condition\n        if flow:', 'Stream.link_with'),
        m('unlink-keeps-TC', ST, E("        self._thermal_condition = self._thermal_condition.copy()\n        self.reset_cache()\n        \n    def copy_like"), "        self.reset_cache()\n        \n    def copy_like", 'Stream.unlink'),
        m('reduce-swapped', ST, E('(self.get_data(), self._ID, self._price, self.characterization_factors, self._thermo)'), '(self.get_data(), self._price, self._ID, self.characterization_factors, self._thermo)', 'Stream.__reduce__'),
        m('cf-discarded', ST, E('{} if characterization_factors is None else characterization_factors\n        self._thermal_condition = tmo.ThermalCondition(T, P)'), '{} if characterization_factors is None else {}\n        self._thermal_condition = tmo.ThermalCondition(T, P)', 'discarded-characterization_factors'),
        m('from-data-drops-price', ST, E('            price=price,\n            thermo=thermo,\n        )\n        self.set_data(data)'), '            thermo=thermo,\n        )\n        self.set_data(data)', 'Stream.from_data'),
        m('shell-shares-phase', IX, E('        new._phase = self._phase.copy()\n        new._data_cache = {}'), '        new._phase = self._phase\n        new._data_cache = {}', 'ChemicalIndexer._copy_without_data'),
        m('indexer-reduce-swapped', IX, E('return self.from_data, (self.data, self._phases, self._chemicals, False)'), 'return self.from_data, (self.data, self._chemicals, self._phases, False)', 'MaterialIndexer.__reduce__'),
        m('stale-phase-indexer', IX, E('            if phase not in phase_indexer: \n                self._expand_phases(phase)\n                phase_indexer = self._phase_indexer\n'), '            if phase not in phase_indexer: \n                self._expand_phases(phase)\n', 'stale-phase_indexer'),
    ],
    'C14': [
        m('proxy-shares-memo', ST, E('        new._thermal_condition = self._thermal_condition\n        new.reset_cache()\n        new.equations = self.equations'), '        new._thermal_condition = self._thermal_condition\n        new._property_cache = self._property_cache\n        new._property_cache_key = self._property_cache_key\n        new.equations = self.equations', 'Stream.proxy'),
        m('key-drops-P', ST, E('                literal = (phase, thermal_condition._T, thermal_condition._P)'), '                literal = (phase, thermal_condition._T)', 'Stream._get_property'),
        m('key-drops-phase', MS, E('                literal = (imol._phases, thermal_condition._T, thermal_condition._P)'), '                literal = (thermal_condition._T, thermal_condition._P)', 'MultiStream._get_property'),
        m('hit-ignores-composition', ST, E('            if literal == last_literal and (composition_key == last_composition_key):'), '            if literal == last_literal:', 'Stream._get_property'),
        m('key-aliases-live-data', ST, E('            self._property_cache_key = (literal, composition_key.copy())'), '            self._property_cache_key = (literal, composition_key)', 'Stream._get_property'),
        m('mismatch-no-clear', MS, E('            else:\n                property_cache.clear()\n            self._property_cache_key = (literal, [i.copy() for i in composition_key])'), '            self._property_cache_key = (literal, [i.copy() for i in composition_key])', 'MultiStream._get_property'),
        m('thermo-no-reset', ST, E('        self._imol.reset_chemicals(thermo.chemicals)\n        self.reset_cache()\n'), '        self._imol.reset_chemicals(thermo.chemicals)\n', 'Stream._reset_thermo'),
        m('reset-keeps-key', ST, E('        self._property_cache_key = None, None\n        self._property_cache = {}'), '        self._property_cache = {}', 'Stream.reset_cache'),
    ],
    'C15': [
        m('one-sided-T', LL, E('abs(T - self._T) < self.temperature_cache_tolerance'), 'T - self._T < self.temperature_cache_tolerance', 'one-sided-T'),
        m('one-sided-z', LL, E('(np.abs(self._z_mol - z_mol) < self.composition_cache_tolerance).all()'), '(self._z_mol - z_mol < self.composition_cache_tolerance).all()', 'one-sided-z'),
        m('forget-T', LL, E('            self._z_mol = z_mol\n            self._T = T\n'), '            self._z_mol = z_mol\n', 'unit-partial'),
        m('reuse-ignores-chemicals', LL, E('                and self._lle_chemicals == lle_chemicals\n'), '', 'reuse-conjunction'),
        m('half-swap', LL, E('                        if C_L < C_l: mol_l, mol_L = mol_L, mol_l\n                    elif Ml:'), '                        if C_L < C_l: mol_l = mol_L\n                    elif Ml:', 'partial-swap'),
        m('sle-clamp-removed', SL, E('        elif x >= x_max:\n            liquid_mol[solute_index] = mol_solute\n            solid_mol[solute_index] = 0.\n'), '', 'SLE._update_solubility'),
        m('sle-pure-inverted', SL, E('                if T > Tm:\n                    liquid_mol[solute_index] = mol_solute\n                    solid_mol[solute_index] = 0.'), '                if T < Tm:\n                    liquid_mol[solute_index] = mol_solute\n                    solid_mol[solute_index] = 0.', 'pure-'),
        m('sle-wrong-index', SL, E('            solid_mol[solute_index] = mol_solute - mol_solute_liquid '), '            solid_mol[self._index] = mol_solute - mol_solute_liquid ', 'SLE._update_solubility'),
    ],
    'C16': [
        m('gather-reversed', AC, E('        for i, j in enumerate(index): x_sub[i] = x[j]\n        xsum = x_sub.sum()\n        if xsum != 0: '), '        for i, j in enumerate(index): x[j] = x_sub[i]\n        xsum = x_sub.sum()\n        if xsum != 0: ', 'gamma_UNIFAC'),
        m('normalise-caller-array', AC, E('    weighted_counts = chemgroups.transpose() @ x\n'), '    x /= x.sum()\n    weighted_counts = chemgroups.transpose() @ x\n', 'group_activity_coefficients'),
        m('psi-no-copy', AC, E('        interactions = interactions.copy()\n        x_sub = np.ones(N_chemicals)\n        for i, j in enumerate(index): x_sub[i] = x[j]\n        xsum = x_sub.sum()\n        if xsum:'), '        x_sub = np.ones(N_chemicals)\n        for i, j in enumerate(index): x_sub[i] = x[j]\n        xsum = x_sub.sum()\n        if xsum:', 'no-copy-for-abc'),
        m('scatter-wrong-index', AC, E('            if np.isnan(value): continue\n            gamma[j] = value\n    return gamma\n    \n    \n# %% Activity'), '            if np.isnan(value): continue\n            gamma[i] = value\n    return gamma\n    \n    \n# %% Activity', 'gamma_modified_UNIFAC'),
        m('call-not-f', AC, E('        x = np.asarray(x, float)\n        return self.f(x, T, *self.args)'), '        x = np.asarray(x, float)\n        return self.activity_coefficients(x, T)', 'GroupActivityCoefficients.__call__'),
        m('ideal-not-one', 'thermosteam/equilibrium/ideal.py', E('    return 1.'), '    return 0.', '_ideal_coefficient'),
        m('default-zeros', AC, E('    gamma = np.ones(x.size)\n    if N_chemicals > 1:\n        interactions = interactions.copy()\n        x_sub = np.ones(N_chemicals)\n        for i, j in enumerate(index): x_sub[i] = x[j]\n        xsum = x_sub.sum()\n        if xsum:'), '    gamma = np.zeros(x.size)\n    if N_chemicals > 1:\n        interactions = interactions.copy()\n        x_sub = np.ones(N_chemicals)\n        for i, j in enumerate(index): x_sub[i] = x[j]\n        xsum = x_sub.sum()\n        if xsum:', 'gamma_modified_UNIFAC'),
    ],
    'C17': [
        m('backwards-mutates-self', RX, E('                if N_reactants == 1:\n                    new._reactant_index = reactants_index[0]\n                else:\n                    raise ValueError(\'must pass reactant when multiple reactants are involved\')\n        else:'), '                if N_reactants == 1:\n                    self._reactant_index = reactants_index[0]\n                else:\n                    raise ValueError(\'must pass reactant when multiple reactants are involved\')\n        else:', 'Reaction.backwards'),
        m('sub-returns-self', RX, E('    def __sub__(self, rxn):\n        if rxn == 0 or rxn is None or not rxn.has_reaction(): return self.copy()'), '    def __sub__(self, rxn):\n        if rxn == 0 or rxn is None or not rxn.has_reaction(): return self', 'Reaction.__sub__'),
        m('isub-sign', RX, E('        stoichiometry = self._stoichiometry*self.X - rxn._stoichiometry*rxn.X\n        self._stoichiometry'), '        stoichiometry = self._stoichiometry*self.X + rxn._stoichiometry*rxn.X\n        self._stoichiometry', '__isub__'),
        m('mul-in-place', RX, E('    def __mul__(self, num):\n        new = self.copy()'), '    def __mul__(self, num):\n        new = self', 'Reaction.__mul__'),
        m('copy-shallow', RX, E('        copy._stoichiometry = self._stoichiometry.copy()\n        copy._reactant_index = self._reactant_index\n        copy._chemicals = self._chemicals\n        copy._X = self._X\n'), '        copy._stoichiometry = self._stoichiometry\n        copy._reactant_index = self._reactant_index\n        copy._chemicals = self._chemicals\n        copy._X = self._X\n', 'Reaction.copy'),
        m('set-copy-shares-X', RX, E('        copy._X = self._X.copy()'), '        copy._X = self._X', 'ReactionSet.copy'),
        m('iadd-X-wrong', RX, E('        self._stoichiometry = stoichiometry / -(stoichiometry[self._reactant_index])\n        self.X = self.X + rxn.X'), '        self._stoichiometry = stoichiometry / -(stoichiometry[self._reactant_index])\n        self.X = self.X - rxn.X', '__iadd__'),
        m('item-copies-X', RX, E('        self._X = rxnset._X\n        self._chemicals = rxnset._chemicals'), '        self._X = rxnset._X.copy()\n        self._chemicals = rxnset._chemicals', 'ReactionItem.__init__'),
        m('itruediv-delegates-mul', RX, E('        return self.__imul__(1./num) '), '        return self.__imul__(num) ', '__itruediv__'),
        m('add-in-place', RX, E('        rxn = self._math_compatible_reaction(rxn)\n        stoichiometry = self._stoichiometry * self.X + rxn._stoichiometry * rxn.X'), '        rxn = self._math_compatible_reaction(rxn, copy=False)\n        stoichiometry = self._stoichiometry * self.X + rxn._stoichiometry * rxn.X', 'Reaction.__add__'),
    ],
    'C18': [
        m('pop-no-undock', NW, E('            stream = streams.pop(index)\n            self._undock(stream)'), '            stream = streams.pop(index)', 'StreamSequence.pop'),
        m('clear-no-undock', NW, E('            for i in self._streams: self._undock(i)\n            self._initialize_missing_streams()\n        else:'), '            self._initialize_missing_streams()\n        else:', 'StreamSequence.clear'),
        m('append-no-dock', NW, E('        self._undock(stream)\n        self._dock(stream)\n        self._streams.append(stream)'), '        self._undock(stream)\n        self._streams.append(stream)', 'StreamSequence.append'),
        m('set-stream-no-undock', NW, E('            self._undock(old_stream)\n            self._streams[int] = self._redock(stream, stacklevel+1)'), '            self._streams[int] = self._redock(stream, stacklevel+1)', 'StreamSequence._set_stream'),
        m('insert-when-fixed', NW, E('    def insert(self, index, stream):\n        if self._fixed_size: \n            raise RuntimeError(f"size of \'{type(self).__name__}\' object is fixed")\n'), '    def insert(self, index, stream):\n', 'StreamSequence.insert'),
        m('redock-no-remove', NW, E('                if stream in outs:\n                    outs.remove(stream)\n'), '                if stream in outs:\n', 'AbstractOutlets._redock'),
        m('redock-wrong-owner', NW, E('        else:\n            stream._sink = self._sink\n        return stream'), '        else:\n            stream._sink = sink\n        return stream', 'AbstractInlets._redock'),
        m('foreign-writer', NW, E('    def disconnect_sink(self):\n        """Disconnect stream from sink."""\n        sink = self._sink\n        if sink: sink.ins.remove(self)'), '    def disconnect_sink(self):\n        """Disconnect stream from sink."""\n        sink = self._sink\n        if sink: self._sink = None', 'writer-_sink'),
        m('disconnect-wrong-side', NW, E('for o in outlets: outs[outs.index(o)'), 'for o in outlets: outs[ins.index(o)', 'AbstractUnit.disconnect'),
        m('disconnect-source-ins', NW, E('        if source: source.outs.remove(self)'), '        if source: source.ins.remove(self)', 'owner-side'),
        m('set-streams-no-redock', NW, E('        for stream in all_streams: self._redock(stream, stacklevel)\n'), '', 'StreamSequence._set_streams'),
        m('empty-no-undock', NW, E('    def empty(self):\n        for i in self._streams: self._undock(i)\n'), '    def empty(self):\n', 'StreamSequence.empty'),
    ],
    'C20': [
        m('partition-top-first', SEPF, E('    top.mol[:] = feed_mol - bottom.mol\n    return phi'), '    return phi', 'partition'),
        m('partition-no-clamp', SEPF, E('        handle_infeasible_flow_rates(bottom_mol, mol, strict, stacklevel+1)\n        bottom.imol[IDs] = bottom_mol'), '        bottom.imol[IDs] = bottom_mol', 'partition'),
        m('clamp-upper-removed', SEPF, E('    mol[infeasible_index] = maxmol[infeasible_index]'), '    pass', 'handle_infeasible_flow_rates'),
        m('moisture-repair-sign', SEPF, E('            retentate.imol[key] += permeate.imol[key]'), '            retentate.imol[key] -= permeate.imol[key]', 'adjust_moisture_content'),
        m('moisture-permeate-keeps', SEPF, E('        permeate.imol[key] -= water - retentate_water'), '        permeate.imol[key] -= water', 'adjust_moisture_content'),
        m('mix-split-wrong-feed', SEPF, E('    top.split_to(top, bottom, split, energy_balance=True)'), '    bottom.split_to(top, bottom, split, energy_balance=True)', 'mix_and_split'),
        m('lle-both-same-row', SEPF, E('    bottom.mol[:] = ms.imol[bottom_phase]'), '    bottom.mol[:] = ms.imol[top_phase]', 'lle'),
        m('lle-efficiency-mixing', SEPF, E('        mixing = (1. - efficiency) / 2. * feed.mol'), '        mixing = (1. - efficiency) * feed.mol', 'lle'),
        m('vle-liq-from-gas', SEPF, E("    liq.mol[:] = ms.imol['l']"), "    liq.mol[:] = ms.imol['g']", 'vle'),
        m('balance-wrong-factor', SEPF, E('        for factor, s in zip(x, variable_inlets):\n            s.mol[:] = s.mol * factor'), '        for factor, s in zip(x, variable_inlets):\n            s.mol[:] = s.mol * x[0]', 'material_balance'),
    ],
}
