"""Path-wise symbolic execution of one function body over the D-lin domain.

This is abstract interpretation of the *source* (no repository code runs):
local names are bound to symbolic Forms, every store through an attribute or
subscript and every call statement is recorded as an event, branches fork
(unless the caller's `decide` callback resolves the test), loop bodies are
executed once with opaque loop variables.
"""
from __future__ import annotations
import ast, re
from .lin import Lin, Form
from .frontend import src, AnalysisError


class Event:
    __slots__ = ('kind', 'stmt', 'target', 'value', 'op', 'node', 'depth', 'extra')

    def __init__(self, kind, stmt, target=None, value=None, op=None, node=None, depth=0, extra=None):
        self.kind = kind      # store augstore augname call assign ret raise cond loop endloop
        self.stmt = stmt
        self.target = target  # canonical text of the store target / callee
        self.value = value    # Form (store/assign/ret) or list of Forms (call args)
        self.op = op
        self.node = node      # the ast target / call node
        self.depth = depth    # loop nesting depth
        self.extra = extra

    def __repr__(self):
        return '<%s %s %s %s>' % (self.kind, self.target, self.op or '', self.value)


class State:
    def __init__(self, lin):
        self.lin = lin
        lin.owner = self     # a `decide` callback reached through a conditional EXPRESSION gets the path state, like one reached through an if statement
        self.tup = {}
        self.events = []
        self.conds = []
        self.ret = None
        self.ret_node = None
        self.raised = False
        self.via_except = False
        self.done = False
        self.depth = 0
        self.loops = []
        self.rconds = []     # (resolved text of the test, outcome, test ast)
        self.ver = {}        # name -> assignment counter
        self.decided = {}    # test text -> (outcome, versions of its names)
        self.jump = None     # pending break / continue
        self.ended_by = None

    def fork(self):
        s = State(self.lin.copy())
        s.tup = dict(self.tup)
        s.events = list(self.events)
        s.conds = list(self.conds)
        s.via_except = self.via_except
        s.depth = self.depth
        s.loops = list(self.loops)
        s.rconds = list(self.rconds)
        s.ver = dict(self.ver)
        s.decided = dict(self.decided)
        s.jump = self.jump
        return s

    def stores(self, kinds=('store', 'augstore')):
        return [e for e in self.events if e.kind in kinds]


class SymX:
    def __init__(self, fn_node, decide=None, call_hook=None, attr_hook=None, init_env=None,
                 max_paths=512, consts=None, follow_except=True, unpack_hook=None, container_identity=True, distinct_loop_vars=False):
        self.unpack_hook = unpack_hook
        self.container_identity = container_identity
        a = getattr(fn_node, 'args', None)
        self.param_names = {x.arg for x in (a.posonlyargs + a.args + a.kwonlyargs)} if a is not None else set()
        self.distinct_loop_vars = distinct_loop_vars
        self.fn = fn_node
        self.decide = decide
        self.max_paths = max_paths
        self.follow_except = follow_except
        lin = Lin(init_env, call_hook, attr_hook, consts, (lambda t, l: decide(t, getattr(l, 'owner', l))) if decide else None)
        self.start = State(lin)
        self.truncated = False

    # -- internals
    _finished = None

    def _block(self, stmts, states):
        if self._finished is None:
            self._finished = []
        for st in stmts:
            nxt = []
            for s in states:
                if s.jump:
                    nxt.append(s)       # break / continue: the rest of the enclosing loop body is skipped
                else:
                    nxt.extend(self._stmt(st, s))
            states = nxt
            if len(states) + len(self._finished) > self.max_paths:
                self.truncated = True
                states = states[: max(1, self.max_paths - len(self._finished))]
            if not states or all(x.jump for x in states):
                break
        return states

    def _splice(self, elts, s):
        """forms of the elements of a display / argument list; *name of a local known to be a tuple display (and *(a, b)) is spliced in"""
        out = []
        for e in elts:
            if isinstance(e, ast.Starred):
                v = e.value
                if isinstance(v, ast.Name) and v.id in s.tup:
                    out.extend(s.tup[v.id])
                    continue
                if isinstance(v, (ast.Tuple, ast.List)) and not any(isinstance(x, ast.Starred) for x in v.elts):
                    out.extend(s.lin.form(x) for x in v.elts)
                    continue
                out.append(s.lin.form(v))
            else:
                out.append(s.lin.form(e))
        return out

    def _record_calls(self, node, s, stmt):
        """record every Call inside an expression as a 'call' event (inner first)"""
        for sub in _calls_in(node):
            tgt = s.lin._callee_text(sub.func)
            args = self._splice(sub.args, s)
            kw = {k.arg: s.lin.form(k.value) for k in sub.keywords}
            s.events.append(Event('call', stmt, tgt, args, node=sub, depth=s.depth, extra=kw))

    def _stmt(self, st, s):
        lin = s.lin
        if isinstance(st, ast.Expr):
            self._record_calls(st.value, s, st)
            return [s]
        if isinstance(st, ast.Assign):
            self._record_calls(st.value, s, st)
            val = st.value
            if self.unpack_hook is not None:
                r = self.unpack_hook(st, s)
                if r is not None:
                    for t, f in r:
                        self._assign_target(t, f, None, s, st)
                    return [s]
            tupforms = None
            if isinstance(val, (ast.Tuple, ast.List)):
                tupforms = self._splice(val.elts, s)
            elif isinstance(val, ast.Name) and val.id in s.tup:
                tupforms = s.tup[val.id]
            elif isinstance(val, ast.Subscript):
                # store-to-load forwarding on a straight path:  c[k] = (a, b) ... x, y = c[k]
                try:
                    vt = self._target_text(val, lin)
                except Exception:
                    vt = None
                if vt is not None:
                    for ev_ in reversed(s.events):
                        if ev_.kind == 'store' and ev_.target == vt:
                            if ev_.extra:
                                tupforms = list(ev_.extra)
                            break
            f = lin.form(val)
            # chained assignment  self.x = y = <fresh container>  : y aliases self.x
            attr_t = [t for t in st.targets if isinstance(t, ast.Attribute)]
            if attr_t and len(st.targets) > 1 and isinstance(val, (ast.List, ast.Dict, ast.Set, ast.Call, ast.ListComp)):
                alias = Form.atom(self._target_text(attr_t[0], lin))
                for t in st.targets:
                    self._assign_target(t, f if isinstance(t, ast.Attribute) else alias, tupforms, s, st)
                return [s]
            for t in st.targets:
                self._assign_target(t, f, tupforms, s, st)
            return [s]
        if isinstance(st, ast.AnnAssign):
            if st.value is not None:
                self._record_calls(st.value, s, st)
                self._assign_target(st.target, lin.form(st.value), None, s, st)
            return [s]
        if isinstance(st, ast.AugAssign):
            self._record_calls(st.value, s, st)
            v = lin.form(st.value)
            if isinstance(st.target, ast.Name):
                s.ver[st.target.id] = s.ver.get(st.target.id, 0) + 1
                old = lin.form(st.target)
                lin.exec_stmt(st)
                s.events.append(Event('augname', st, st.target.id, v, op=type(st.op).__name__,
                                      node=st.target, depth=s.depth, extra=old))
            else:
                s.events.append(Event('augstore', st, self._target_text(st.target, lin), v,
                                      op=type(st.op).__name__, node=st.target, depth=s.depth))
            return [s]
        if isinstance(st, ast.If):
            self._record_calls(st.test, s, st)
            d = self.decide(st.test, s) if self.decide else None
            if d is None:
                d = _const_test(st.test, lin)
            if d is None and s.depth == 0:
                d = _truth_test(st.test, lin)       # a flag local bound to a literal (outside loops: no later iteration can re-bind it)
            rtext = {}
            def _rt(t):
                try:
                    rtext[id(t)] = lin.text(t)
                except Exception:
                    rtext[id(t)] = src(t)
                if isinstance(t, ast.BoolOp):
                    for v in t.values:
                        _rt(v)
                elif isinstance(t, ast.UnaryOp) and isinstance(t.op, ast.Not):
                    _rt(t.operand)
            _rt(st.test)
            # the same pure test on unchanged names has the same outcome as earlier on this path
            pure = _pure_names(st.test)
            key = None
            flip = False
            if d is None and pure is not None:
                # canonical positive form: `x is not y` / `x != y` / `not t` share the entry of `x is y` / `x == y` / `t` with the outcome flipped
                key, flip = _canon_test(st.test)
                vers = tuple(s.ver.get(n, 0) for n in pure)
                prev = s.decided.get(key)
                if prev is not None and prev[1] == vers:
                    d = prev[0] != flip
            outs = []
            if key is not None and d is None:
                vers = tuple(s.ver.get(n, 0) for n in pure)
                # record on both forks below
                s.decided[key] = (False != flip, vers)
            if d is None or d is True:
                a = s.fork() if d is None else s
                if key is not None and d is None:
                    a.decided[key] = (True != flip, tuple(a.ver.get(n, 0) for n in pure))
                a.conds.append((st.test, True))
                a.rconds.append((rtext, True, st.test))
                a.events.append(Event('cond', st, src(st.test), True, depth=a.depth, extra=rtext.get(id(st.test))))
                outs += self._block(st.body, [a])
            if d is None or d is False:
                b = s
                b.conds.append((st.test, False))
                b.rconds.append((rtext, False, st.test))
                b.events.append(Event('cond', st, src(st.test), False, depth=b.depth, extra=rtext.get(id(st.test))))
                outs += self._block(st.orelse, [b]) if st.orelse else [b]
            return outs
        if isinstance(st, (ast.For, ast.AsyncFor)):
            self._record_calls(st.iter, s, st)
            it = lin.form(st.iter)
            s.events.append(Event('loop', st, self._target_text(st.target, lin) if not isinstance(st.target, ast.Name) else st.target.id,
                                  it, node=st, depth=s.depth))
            # loop variables become opaque atoms
            for n in ast.walk(st.target):
                if isinstance(n, ast.Name):
                    s.ver[n.id] = s.ver.get(n.id, 0) + 1
                    shadows = n.id in lin.env or n.id in self.param_names
                    lin.env[n.id] = Form.atom('%s~L%d' % (n.id, st.lineno) if shadows and self.distinct_loop_vars else n.id)
                    s.tup.pop(n.id, None)
            # names assigned in the body are unknown at loop entry only if
            # they are read before being written; we keep entry values (first iteration)
            s.depth += 1
            outs = self._block(st.body, [s])
            broke = []
            for o in outs:
                o.depth -= 1
                o.events.append(Event('endloop', st, depth=o.depth))
                if o.jump == 'break':
                    broke.append(o)
                o.jump = None
            if st.orelse:
                rest = [o for o in outs if not any(o is b for b in broke)]
                outs = broke + (self._block(st.orelse, rest) if rest else [])
            return outs
        if isinstance(st, ast.While):
            self._record_calls(st.test, s, st)
            s.events.append(Event('loop', st, 'while', lin.form(st.test), node=st, depth=s.depth))
            s.depth += 1
            outs = self._block(st.body, [s])
            for o in outs:
                o.depth -= 1
                o.events.append(Event('endloop', st, depth=o.depth))
                o.jump = None
            return outs
        if isinstance(st, (ast.With, ast.AsyncWith)):
            for it in st.items:
                self._record_calls(it.context_expr, s, st)
                if it.optional_vars is not None and isinstance(it.optional_vars, ast.Name):
                    lin.env[it.optional_vars.id] = Form.atom(it.optional_vars.id)
            return self._block(st.body, [s])
        if isinstance(st, ast.Try):
            outs = []
            if self.follow_except and st.handlers:
                for h in st.handlers:
                    e = s.fork()
                    e.via_except = True
                    e.events.append(Event('cond', st, 'except ' + (src(h.type) if h.type else ''), True, depth=e.depth))
                    if h.name:
                        e.lin.env[h.name] = Form.atom(h.name)
                    outs += self._block(h.body, [e])
            body = self._block(st.body, [s])
            if st.orelse:
                body = self._block(st.orelse, body)
            outs = body + outs
            if st.finalbody:
                outs = self._block(st.finalbody, outs)
            return outs
        if isinstance(st, ast.Return):
            if st.value is not None:
                self._record_calls(st.value, s, st)
                s.ret = lin.form(st.value)
                if isinstance(st.value, ast.Tuple):
                    s.tup['<ret>'] = [lin.form(e) for e in st.value.elts]
            else:
                s.ret = None
            s.ret_node = st
            s.events.append(Event('ret', st, None, s.ret, node=st.value, depth=s.depth))
            s.done = True
            self._finished.append(s)
            return []
        if isinstance(st, ast.Raise):
            s.raised = True
            s.events.append(Event('raise', st, None, None, depth=s.depth))
            self._finished.append(s)
            return []
        if isinstance(st, (ast.Pass, ast.Import, ast.ImportFrom, ast.Global, ast.Nonlocal,
                           ast.FunctionDef, ast.ClassDef, ast.Assert, ast.Delete)):
            if isinstance(st, ast.Delete):
                for t in st.targets:
                    s.events.append(Event('delete', st, self._target_text(t, lin), None, node=t, depth=s.depth))
            return [s]
        if isinstance(st, (ast.Break, ast.Continue)):
            kind = 'break' if isinstance(st, ast.Break) else 'continue'
            s.events.append(Event(kind, st, depth=s.depth))
            if s.depth <= 0:
                # the analysed body is one iteration of a loop: the iteration (path) ends here
                s.done = True
                s.ended_by = kind
                self._finished.append(s)
                return []
            s.jump = kind
            return [s]
        return [s]

    def _target_text(self, t, lin):
        if isinstance(t, ast.Attribute):
            return '%s.%s' % (lin._recv_text(t.value), t.attr)
        if isinstance(t, ast.Subscript):
            return '%s[%s]' % (lin._recv_text(t.value), lin._slice_text(t.slice))
        if isinstance(t, ast.Name):
            return t.id
        return src(t)

    def _assign_target(self, t, f, tupforms, s, st):
        lin = s.lin
        if isinstance(t, ast.Name):
            s.ver[t.id] = s.ver.get(t.id, 0) + 1
            v = getattr(st, 'value', None)
            if self.container_identity and isinstance(v, (ast.List, ast.Dict, ast.Set, ast.ListComp, ast.DictComp, ast.SetComp)) \
                    and isinstance(st, ast.Assign) and len(st.targets) >= 1 and not isinstance(st.targets[0], (ast.Tuple, ast.List)):
                f = Form.atom(t.id)
            lin.env[t.id] = f
            if tupforms is not None:
                s.tup[t.id] = tupforms
            else:
                s.tup.pop(t.id, None)
            s.events.append(Event('assign', st, t.id, f, node=t, depth=s.depth))
        elif isinstance(t, (ast.Tuple, ast.List)):
            for i, e in enumerate(t.elts):
                if tupforms is not None and len(tupforms) == len(t.elts):
                    self._assign_target(e, tupforms[i], None, s, st)
                else:
                    ft = f.pretty()
                    self._assign_target(e, Form.atom(('%s[%d]' if re.fullmatch(r'[\w.]+', ft) else '(%s)[%d]') % (ft, i)), None, s, st)
        elif isinstance(t, ast.Starred):
            self._assign_target(t.value, f, None, s, st)
        else:
            s.events.append(Event('store', st, self._target_text(t, lin), f, node=t, depth=s.depth,
                                  extra=tupforms))


_NOLIT = object()


def _literal(txt):
    if txt == 'None':
        return None
    if len(txt) >= 2 and txt[0] == txt[-1] and txt[0] in '\'"':
        try:
            v = ast.literal_eval(txt)
        except Exception:
            return _NOLIT
        return v if isinstance(v, str) else _NOLIT
    try:
        return float(txt)
    except ValueError:
        return _NOLIT


def _truth_test(test, lin):
    neg = False
    while isinstance(test, ast.UnaryOp) and isinstance(test.op, ast.Not):
        test, neg = test.operand, not neg
    if not isinstance(test, ast.Name) or test.id not in lin.env:
        return None
    f = lin.env[test.id]
    try:
        txt = f.pretty()
        c = f.const_value()
    except Exception:
        return None
    if c is not None:
        v = c != 0
    else:
        lit = _literal(txt)
        if lit is _NOLIT:
            return None
        v = bool(lit)
    return v != neg


def _const_test(test, lin):
    """outcome of a comparison whose two sides are numeric constants under the current environment"""
    if isinstance(test, ast.Compare) and len(test.ops) == 1:
        if isinstance(test.ops[0], (ast.Is, ast.IsNot, ast.Eq, ast.NotEq)):
            # both sides are literals (None / string / number) under the current environment
            try:
                ta, tb = lin.form(test.left).pretty(), lin.form(test.comparators[0]).pretty()
                la, lb = _literal(ta), _literal(tb)
            except Exception:
                la = lb = _NOLIT
            if la is not _NOLIT and lb is not _NOLIT and (la is None or lb is None or isinstance(la, str) or isinstance(lb, str)):
                same = (la is None and lb is None) or (la is not None and lb is not None and type(la) is type(lb) and la == lb)
                return same if isinstance(test.ops[0], (ast.Is, ast.Eq)) else not same
        try:
            a = lin.form(test.left).const_value()
            b = lin.form(test.comparators[0]).const_value()
        except Exception:
            return None
        if a is None or b is None:
            return None
        op = test.ops[0]
        return {ast.Eq: a == b, ast.NotEq: a != b, ast.Lt: a < b, ast.LtE: a <= b, ast.Gt: a > b, ast.GtE: a >= b}.get(type(op))
    return None


def _canon_test(test):
    flip = False
    t = test
    while isinstance(t, ast.UnaryOp) and isinstance(t.op, ast.Not):
        t, flip = t.operand, not flip
    if isinstance(t, ast.Compare) and len(t.ops) == 1 and isinstance(t.ops[0], (ast.IsNot, ast.NotEq, ast.NotIn)):
        pos = {ast.IsNot: ast.Is, ast.NotEq: ast.Eq, ast.NotIn: ast.In}[type(t.ops[0])]
        t = ast.Compare(left=t.left, ops=[pos()], comparators=t.comparators)
        flip = not flip
    return src(t), flip


def _pure_names(test):
    """names of a test made only of names, constants, not/and/or and comparisons -- else None"""
    names = []
    for n in ast.walk(test):
        if isinstance(n, ast.Name):
            names.append(n.id)
        elif isinstance(n, (ast.Constant, ast.BoolOp, ast.UnaryOp, ast.Compare, ast.And, ast.Or, ast.Not, ast.Load,
                            ast.Eq, ast.NotEq, ast.Lt, ast.LtE, ast.Gt, ast.GtE, ast.Is, ast.IsNot, ast.In, ast.NotIn)):
            continue
        else:
            return None
    return sorted(set(names)) if names else None


def _calls_in(node):
    """Call nodes inside an expression, innermost first, not entering lambdas"""
    out = []

    def rec(n):
        if isinstance(n, ast.Lambda):
            return
        for c in ast.iter_child_nodes(n):
            rec(c)
        if isinstance(n, ast.Call):
            out.append(n)
    rec(node)
    return out


def run_paths(fn_node, **kw):
    sx = SymX(fn_node, **kw)
    sx._finished = []
    tail = sx._block(fn_node.body, [sx.start])
    for s in tail:
        s.done = True
    paths = sx._finished + tail
    return paths, sx.truncated
