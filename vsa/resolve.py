"""Resolve locals of an expression through the definitions seen on one symbolic path (so that a rule reads
`a = f(x); b = g(a)` and `b = g(f(x))` alike)."""
from __future__ import annotations
import ast


def clone_expr(e):
    return ast.parse(ast.unparse(e), mode='eval').body


class _R(ast.NodeTransformer):
    def __init__(self, defs, skip):
        self.defs, self.skip = defs, skip

    def visit_Name(self, node):
        d = self.defs.get(node.id)
        if d is not None and node.id not in self.skip and isinstance(node.ctx, ast.Load):
            return _R(self.defs, self.skip | {node.id}).visit(clone_expr(d))
        return node

    # names bound inside a comprehension / lambda shadow the path's locals
    def _scoped(self, node):
        bound = {n.id for g in getattr(node, 'generators', []) for n in ast.walk(g.target) if isinstance(n, ast.Name)}
        if isinstance(node, ast.Lambda):
            bound = {a.arg for a in node.args.args}
        sub = _R(self.defs, self.skip | bound)
        for f, v in ast.iter_fields(node):
            if isinstance(v, ast.AST):
                setattr(node, f, sub.visit(v))
            elif isinstance(v, list):
                setattr(node, f, [sub.visit(x) if isinstance(x, ast.AST) else x for x in v])
        return node
    visit_ListComp = visit_SetComp = visit_DictComp = visit_GeneratorExp = visit_Lambda = _scoped


def resolved(e, defs, keep=()):
    """a copy of expression `e` with every local that has a definition in `defs` replaced by it (recursively)"""
    return _R(defs, set(keep)).visit(clone_expr(e))


def path_defs(p, before=None):
    """name -> defining expression for the plain `name = expr` assignments of path `p` (the last one before event `before`)"""
    defs = {}

    def put(name, value):
        # x = f(x): the new definition is read with the previous one substituted (the path is a straight line)
        if name in defs and any(isinstance(n, ast.Name) and n.id == name and isinstance(n.ctx, ast.Load) for n in ast.walk(value)):
            value = _R({name: defs[name]}, set()).visit(clone_expr(value))
        # a definition that mentions another local whose definition changes later must be frozen now
        defs[name] = value

    for e in p.events:
        if before is not None and e is before:
            break
        if e.kind == 'assign' and isinstance(e.stmt, ast.Assign) and len(e.stmt.targets) == 1 \
                and isinstance(e.stmt.targets[0], ast.Name):
            put(e.target, e.stmt.value)
        elif e.kind == 'assign' and isinstance(e.stmt, ast.Assign) and all(isinstance(t, ast.Name) for t in e.stmt.targets):
            defs[e.target] = e.stmt.value
        elif e.kind == 'assign' and isinstance(e.stmt, ast.Assign) and len(e.stmt.targets) == 1 and isinstance(e.stmt.targets[0], (ast.Tuple, ast.List)) \
                and all(isinstance(t, ast.Name) for t in e.stmt.targets[0].elts):
            # a, b = X   ->  a = X[0], b = X[1]   (a, b = (x, y)  ->  a = x, b = y)
            names = [t.id for t in e.stmt.targets[0].elts]
            if e.target in names:
                i = names.index(e.target)
                v = e.stmt.value
                if isinstance(v, (ast.Tuple, ast.List)) and len(v.elts) == len(names) and not any(isinstance(x, ast.Starred) for x in v.elts):
                    defs[e.target] = v.elts[i]
                else:
                    defs[e.target] = ast.Subscript(value=v, slice=ast.Constant(value=i), ctx=ast.Load())
            else:
                defs.pop(e.target, None)
        elif e.kind in ('assign', 'augname'):
            defs.pop(e.target, None)
    return defs
